#!/usr/bin/env python3
"""Checker self-test: every 'fire' mutant of selftest/mutants.json must make the named checks exit 1
with the expected text in the report; every 'silent' (behaviour-preserving) edit must leave all
checks at exit 0 with an unchanged set of KNOWN-FINDING lines.  Works on scratch copies of /repo's
sources (never on /repo), 16 in parallel, and removes every copy.

usage: tools/selftest.py [--only ID[,ID..]] [--props C01,C02] [-j N]
exit 0: all expectations met; 1: some mutant missed / some silent edit alarmed; 2: infrastructure problem
"""
import concurrent.futures as cf
import json
import os
import re
import shutil
import subprocess
import sys
import tempfile

HERE = os.path.dirname(os.path.dirname(os.path.abspath(__file__)))
REPO = os.environ.get('LCVERIF_REPO', '/repo')


def make_copy(m):
    d = tempfile.mkdtemp(prefix='lcv-self-')
    os.makedirs(os.path.join(d, 'repo', 'src'))
    os.makedirs(os.path.join(d, 'ev'))
    for f in ('confuse.c', 'confuse.h', 'compat.h', 'lexer.l', 'Makefile.am'):
        shutil.copy(os.path.join(REPO, 'src', f), os.path.join(d, 'repo', 'src', f))
    cfgh = os.path.join(REPO, 'config.h')
    if not os.path.exists(cfgh):
        cfgh = os.path.join(HERE, 'support', 'config.h')
    shutil.copy(cfgh, os.path.join(d, 'repo', 'config.h'))
    before = {f: open(os.path.join(d, 'repo', 'src', f), 'rb').read() for f in ('confuse.c', 'lexer.l')}
    if 'patch' in m:
        r = subprocess.run(['patch', '-p1', '-s', '-i', os.path.join(HERE, 'selftest', m['patch'])], cwd=os.path.join(d, 'repo'),
                           stdout=subprocess.PIPE, stderr=subprocess.STDOUT)
        if r.returncode:
            shutil.rmtree(d)
            return None, 'patch does not apply: ' + r.stdout.decode()[-300:]
    elif 'py' in m:
        r = subprocess.run([sys.executable, os.path.join(HERE, 'selftest', 'py', m['py'])], cwd=os.path.join(d, 'repo'),
                           stdout=subprocess.PIPE, stderr=subprocess.STDOUT)
        if r.returncode:
            shutil.rmtree(d)
            return None, 'edit script failed: ' + r.stdout.decode()[-300:]
    else:
        r = subprocess.run(['sed', '-i', '-E', m['sed'], os.path.join(d, 'repo', 'src', m['file'])], stdout=subprocess.PIPE, stderr=subprocess.STDOUT)
        if r.returncode:
            shutil.rmtree(d)
            return None, 'sed failed: ' + r.stdout.decode()[-300:]
    after = {f: open(os.path.join(d, 'repo', 'src', f), 'rb').read() for f in ('confuse.c', 'lexer.l')}
    if before == after:
        shutil.rmtree(d)
        return None, 'edit did not change the sources (pattern no longer matches)'
    return d, None


def compiles(d):
    src = os.path.join(d, 'repo', 'src')
    r = subprocess.run('cd %s && cp ../config.h . && flex -Pcfg_yy -olexer.c lexer.l && '
                       'clang -fsyntax-only -w -DHAVE_CONFIG_H -I. -D_GNU_SOURCE -DBUILDING_DLL -DLOCALEDIR=\\"/x\\" confuse.c lexer.c; rc=$?; rm -f lexer.c config.h; exit $rc' % src,
                       shell=True, stdout=subprocess.PIPE, stderr=subprocess.STDOUT)
    return r.returncode == 0, r.stdout.decode()[-400:]


def run_check(d, pid):
    env = dict(os.environ, LCVERIF_REPO=os.path.join(d, 'repo'), LCVERIF_EVIDENCE=os.path.join(d, 'ev'))
    r = subprocess.run([os.path.join(HERE, 'check'), pid], env=env, stdout=subprocess.PIPE, stderr=subprocess.STDOUT)
    return r.returncode, r.stdout.decode('latin-1')


def known_key(line):
    """the [rule key] part of a KNOWN-FINDING line: what identifies the finding (the prose and the position may move)"""
    m = re.search(r'\[(R[\d.]+[a-z]? [^\]]+)\]', line)
    return m.group(1) if m else re.sub(r'src/\S+:\d+', '', line)


def do_fire(m, props):
    d, err = make_copy(m)
    if d is None:
        return (m['id'], 'BROKEN', err)
    try:
        ok, out = compiles(d)
        if not ok:
            return (m['id'], 'BROKEN', 'mutant does not compile: ' + out)
        res = []
        for pid, pat in sorted(m['checks'].items()):
            if props and pid not in props:
                continue
            rc, out = run_check(d, pid)
            viol = [l for l in out.split('\n') if re.match(r'^\S+: \[R', l)]
            hit = rc == 1 and any(pat in l for l in viol)
            res.append((pid, rc, hit, viol[:2]))
        bad = [r for r in res if not r[2]]
        if bad:
            return (m['id'], 'MISSED', '; '.join('%s rc=%d %s' % (p, rc, v) for p, rc, _, v in bad))
        return (m['id'], 'ok', ', '.join(p for p, _, _, _ in res))
    finally:
        shutil.rmtree(d, ignore_errors=True)


def do_silent(m, props, baseline):
    d, err = make_copy(m)
    if d is None:
        return (m['id'], 'BROKEN', err)
    try:
        ok, out = compiles(d)
        if not ok:
            return (m['id'], 'BROKEN', 'edit does not compile: ' + out)
        bad = []
        for pid in sorted(baseline):
            if props and pid not in props:
                continue
            rc, out = run_check(d, pid)
            kn = sorted(known_key(l) for l in out.split('\n') if l.startswith('KNOWN-FINDING'))
            if rc != 0 or kn != baseline[pid]:
                first = next((l for l in out.split('\n') if re.match(r'^\S+: \[R', l) or 'BROKEN' in l), '')
                bad.append('%s rc=%d %s' % (pid, rc, first[:160]))
        if bad:
            return (m['id'], 'ALARM', '; '.join(bad))
        return (m['id'], 'ok', 'all verdicts unchanged')
    finally:
        shutil.rmtree(d, ignore_errors=True)


def main(argv):
    only = None
    props = None
    jobs = 16
    if '--only' in argv:
        only = set(argv[argv.index('--only') + 1].split(','))
    if '--props' in argv:
        props = set(argv[argv.index('--props') + 1].split(','))
    if '-j' in argv:
        jobs = int(argv[argv.index('-j') + 1])
    with open(os.path.join(HERE, 'selftest', 'mutants.json')) as fh:
        cat = json.load(fh)
    with open(os.path.join(HERE, 'MANIFEST.json')) as fh:
        claimed = [c['property_id'] for c in json.load(fh)['checks']]
    # baseline verdicts on the unchanged tree
    baseline = {}
    for pid in claimed:
        if props and pid not in props:
            continue
        env = dict(os.environ, LCVERIF_EVIDENCE=tempfile.mkdtemp(prefix='lcv-self-ev-'))
        r = subprocess.run([os.path.join(HERE, 'check'), pid], env=env, stdout=subprocess.PIPE, stderr=subprocess.STDOUT)
        shutil.rmtree(env['LCVERIF_EVIDENCE'], ignore_errors=True)
        out = r.stdout.decode('latin-1')
        if r.returncode != 0:
            print('unchanged tree: %s exits %d - fix that first' % (pid, r.returncode))
            return 2
        baseline[pid] = sorted(known_key(l) for l in out.split('\n') if l.startswith('KNOWN-FINDING'))
    results = []
    with cf.ThreadPoolExecutor(max_workers=jobs) as ex:
        futs = []
        for m in cat['fire']:
            if only and m['id'] not in only:
                continue
            futs.append(ex.submit(do_fire, m, props))
        for m in cat['silent']:
            if only and m['id'] not in only:
                continue
            futs.append(ex.submit(do_silent, m, props, baseline))
        for f in futs:
            results.append(f.result())
    # an expectation that failed is tried once more on its own (the first round runs 16 scratch builds at once)
    byid = {m['id']: ('fire', m) for m in cat['fire']}
    byid.update({m['id']: ('silent', m) for m in cat['silent']})
    for k, (mid, st, det) in enumerate(results):
        if st != 'ok':
            kind, m = byid[mid]
            results[k] = do_fire(m, props) if kind == 'fire' else do_silent(m, props, baseline)
            if results[k][1] == 'ok':
                print('%-36s passed on the second attempt (first: %s %s)' % (mid, st, det[:120]))
    rc = 0
    for mid, st, det in results:
        if st != 'ok':
            print('%-36s %-7s %s' % (mid, st, det))
            rc = max(rc, 2 if st == 'BROKEN' else 1)
    nok = sum(1 for r in results if r[1] == 'ok')
    outp = os.environ.get('LCVERIF_SELFTEST_OUT')
    if outp:
        with open(outp, 'w') as fh:
            json.dump({'expectations': len(results), 'met': nok,
                       'must_fire': [r[0] for r in results if any(m['id'] == r[0] for m in cat['fire']) and (not props or any(pp in props for pp in next(m for m in cat['fire'] if m['id'] == r[0])['checks']))],
                       'must_stay_silent': [r[0] for r in results if any(m['id'] == r[0] for m in cat['silent'])],
                       'failed': [list(r) for r in results if r[1] != 'ok']}, fh)
    print('selftest: %d/%d expectations met (%d must-fire, %d must-stay-silent)' % (
        nok, len(results), len([m for m in cat['fire'] if not only or m['id'] in only]), len([m for m in cat['silent'] if not only or m['id'] in only])))
    return rc


if __name__ == '__main__':
    sys.exit(main(sys.argv))
