#!/bin/bash
# tools/try_mutant.sh <patch-file | -e 'sed-expr' file> -- <property ids...>
# Applies a change to a scratch copy of /repo's sources (never /repo itself), runs the
# given checks against the copy with a private evidence directory, prints one line per
# property, and removes the copy.
set -u
VERIF=$(cd "$(dirname "$0")/.." && pwd)
D=$(mktemp -d "${TMPDIR:-/tmp}/lcv-mut.XXXXXX")
trap 'rm -rf "$D"' EXIT
mkdir -p "$D/repo/src" "$D/ev"
cp /repo/src/confuse.c /repo/src/confuse.h /repo/src/compat.h /repo/src/lexer.l /repo/src/Makefile.am "$D/repo/src/"
cp /repo/config.h "$D/repo/" 2>/dev/null || cp "$VERIF/support/config.h" "$D/repo/"
if [ "$1" = "-py" ]; then
  (cd "$D/repo" && python3 "$2") || { echo "python edit failed"; exit 2; }
  shift 2
elif [ "$1" = "-e" ]; then
  sed -i -E "$2" "$D/repo/src/$3" || exit 2
  shift 3
else
  (cd "$D/repo" && patch -p1 -s < "$1") || { echo "patch failed"; exit 2; }
  shift
fi
[ "${1:-}" = "--" ] && shift
if cmp -s "$D/repo/src/confuse.c" /repo/src/confuse.c && cmp -s "$D/repo/src/lexer.l" /repo/src/lexer.l; then echo "NO-CHANGE"; exit 2; fi
for p in "$@"; do
  out=$(LCVERIF_REPO="$D/repo" LCVERIF_EVIDENCE="$D/ev" "$VERIF/check" "$p" 2>&1)
  rc=$?
  echo "$p rc=$rc $(echo "$out" | grep -c '^VIOLATION') violation(s)"
  if [ "${VERBOSE:-0}" = 1 ] || [ $rc -eq 2 ]; then echo "$out" | grep -v '^   R' | head -${LINES_MAX:-30}; else echo "$out" | grep -E '^\S+: \[' | head -5; fi
done
